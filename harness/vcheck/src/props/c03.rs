//! C03 / C04 / C17 — properties decided on full conversations through the real `Connector::connect`
//! over real TLS. Configurations are enumerated as: default x default, every single alternative,
//! every pair of alternatives (every triple in thorough).

use crate::peer::{CapsKind, ServerParams};
use crate::props::c15::string_alphabet;
use crate::runner::{Outcome, Prop, Tier};
use crate::tls::{Cert, ConnCfg};
use crate::wire::{self, converse};
use serde_json::{json, Value};
use vref::sec::Licence;

/// one coordinate per dimension; 0 is the default
pub type Assign = Vec<usize>;

pub const DIM_NAMES: [&str; 34] = [
    "use_nla", "restricted_admin", "blank_creds", "auto_logon", "use_hash", "client_name", "screen", "layout", "credentials", "select_ssl_although_nla", "user_id", "share_id", "version", "sc_core_optional", "block_order", "unknown_block", "channels", "licence",
    "capabilities", "source_descriptor", "reactivations", "reuse_share_id_on_reactivation", "licence_security_flags", "set_error_info_during_finalization", "builder_call_order", "data_priority_of_server_indications", "ber_length_width_of_connect_response", "ntlm_challenge_maxlen_fields", "ntlm_challenge_without_version_or_target_info_flag", "ntlm_challenge_payload_layout", "negotiation_response_flags", "earlier_connections_of_the_same_connector", "sc_security_optional_length_fields", "licence_security_header_flags_hi",
];

pub fn names() -> Vec<String> {
    vec!["rdp-rs".into(), "".into(), "a".repeat(15), "a".repeat(16), "a".repeat(17), "é".into(), "日本語".into(), "é".repeat(15), "pc-😀".into()]
}

pub fn dim_sizes() -> Vec<usize> {
    vec![2, 2, 2, 2, 2, names().len(), 4, 3, 3, 2, 6, 4, 5, 3, 6, 2, 3, 5, 4, 3, 4, 2, 2, 5, 6, 4, 4, 3, 5, 4, 5, 5, 2, 3]
}

pub fn build(a: &Assign) -> (ConnCfg, ServerParams) {
    let mut c = ConnCfg::default();
    let mut p = ServerParams::default();
    c.use_nla = a[0] == 0;
    c.restricted_admin = a[1] == 1;
    c.blank_creds = a[2] == 1;
    c.client.auto_logon = a[3] == 1;
    c.use_hash = a[4] == 1;
    c.client.name = names()[a[5]].clone();
    let (w, h) = [(800u16, 600u16), (0, 0), (1, 1), (65535, 65535)][a[6]];
    c.client.width = w;
    c.client.height = h;
    c.client.layout = a[7] as u8;
    let creds = [("dom", "user", "S3cr3t-pässwörd"), ("", "", ""), ("日本", "üser😀", "pä$$ 😀")][a[8]];
    c.client.domain = creds.0.into();
    c.client.user = creds.1.into();
    c.client.password = creds.2.into();
    p.selected = if c.use_nla && a[9] == 0 { 2 } else { 1 };
    p.user_id = [1007u16, 1001, 1002, 1004, 0x8000, 65535][a[10]];
    p.share_id = [0x000103EAu32, 0, 1, 0xFFFFFFFF][a[11]];
    p.version = [0x00080004u32, 0x00080001, 0x00080005, 0x00080011, 0x000A0007][a[12]];
    p.core_opt = [2u8, 0, 1][a[13]];
    p.block_order = a[14];
    p.unknown_block = a[15] == 1;
    p.channels = [vec![], vec![1004], vec![1004, 1005]][a[16]].clone();
    match a[17] {
        0 => {}
        1 => p.licence = Licence::ValidClient { blob: vec![0xAB; 10], blob_type: 4 },
        2 => p.licence = Licence::NewLicense { body: vec![0x11; 40] },
        3 => p.licence = Licence::NewLicense { body: vec![] },
        _ => p.licence = Licence::ValidClient { blob: vec![], blob_type: 0 },
    }
    p.caps = [CapsKind::WindowsCapture, CapsKind::Minimal, CapsKind::WithUnknown, CapsKind::WithZeroLenBody][a[18]].clone();
    p.source_descriptor = [b"RDP\0".to_vec(), vec![], vec![0x41; 300]][a[19]].clone();
    p.reactivations = [0usize, 1, 2, 4][a[20]];
    p.reuse_share_id = a[21] == 1;
    // (values 2 and 3 only come from `history_assignments`: the deactivate-all packed behind another PDU in its frame)
    p.deactivate_packed_behind = if a[21] >= 2 { (a[21] - 1) as u8 } else { 0 };
    p.licence_sec_flags = [0x0080u16, 0x0280][a[22]];
    p.errinfo_before = a[23];
    c.builder_order = [0u8, 1, 2, 3, 4, 5][a[24]];
    p.sdi_priority = [0x70u8, 0x30, 0xB0, 0xF0][a[25]];
    p.ber_wide = a[26];
    p.ntlm.maxlen_override = [None, Some(0u16), Some(0xFFFF)][a[27]];
    p.ntlm.layout = a[29] as u8;
    p.cc_flags = [0u8, 0x01, 0x0F, 0x1F, 0x04][a[30]];
    c.earlier_connections = a[31] as u8;
    p.sc_security_optional_lengths = a[32] == 1;
    p.licence_flags_hi = [0u16, 0xBEEF, 0x0001][a[33]];
    p.ntlm.flags &= ![0, vref::ntlm::F_VERSION, vref::ntlm::F_TARGET_INFO, vref::ntlm::F_VERSION | vref::ntlm::F_TARGET_INFO, vref::ntlm::F_UNICODE][a[28]];
    (c, p)
}

/// all assignments with at most k non-default coordinates, fewest deviations first
pub fn assignments(sizes: &[usize], k: usize) -> Vec<Assign> {
    let mut out = vec![];
    fn rec(sizes: &[usize], start: usize, left: usize, cur: &mut Assign, out: &mut Vec<Assign>) {
        out.push(cur.clone());
        if left == 0 {
            return;
        }
        for d in start..sizes.len() {
            for v in 1..sizes[d] {
                cur[d] = v;
                rec(sizes, d + 1, left - 1, cur, out);
                cur[d] = 0;
            }
        }
    }
    rec(sizes, 0, k, &mut vec![0; sizes.len()], &mut out);
    out.sort_by_key(|a| a.iter().filter(|v| **v != 0).count());
    out
}

/// assignments outside the product enumeration: the further histories of the Connector / of the thread (modes 5..9 of
/// ConnCfg::earlier_connections — minimal re-configurations, an earlier attempt that the client itself gave up because a
/// credential or the client name was too long), alone and combined with each alternative of the dimensions that change
/// what the client sends first (NLA, restricted admin, blank credentials, auto logon, hash, SSL selected, re-activations)
pub fn history_assignments() -> Vec<Assign> {
    let n = dim_sizes().len();
    let mut out = vec![];
    for mode in 5..=12usize {
        let mut a = vec![0usize; n];
        a[31] = mode;
        out.push(a.clone());
        for d in [0usize, 1, 2, 3, 4, 9, 20] {
            let mut b = a.clone();
            b[d] = 1;
            out.push(b);
        }
    }
    // a re-activation whose deactivate-all rides in one frame behind a data PDU the client does not parse / behind a Set
    // Error Info PDU (1, 2 and 4 re-activations, NLA on and off)
    for packed in [2usize, 3] {
        for react in [1usize, 2, 3] {
            for nla in [0usize, 1] {
                let mut a = vec![0usize; n];
                a[21] = packed;
                a[20] = react;
                a[0] = nla;
                out.push(a);
            }
        }
    }
    out
}

pub fn describe_assign(a: &Assign) -> Value {
    let nd: Vec<String> = a.iter().enumerate().filter(|(_, v)| **v != 0).map(|(i, v)| format!("{}={}", DIM_NAMES[i], v)).collect();
    let (c, p) = build(a);
    json!({"non_default": nd, "connector": c, "server": {"selected": p.selected, "user_id": p.user_id, "share_id": p.share_id, "version": p.version, "core_opt": p.core_opt, "block_order": p.block_order, "unknown_block": p.unknown_block, "channels": p.channels, "licence": p.licence, "caps": p.caps, "source_descriptor_len": p.source_descriptor.len(), "reactivations": p.reactivations}})
}

pub struct C03 {
    cases: Vec<Assign>,
    bound: usize,
}

impl C03 {
    pub fn new() -> C03 {
        C03 { cases: vec![], bound: 2 }
    }
}

impl Prop for C03 {
    fn id(&self) -> &'static str {
        "C03"
    }
    fn level(&self) -> &'static str {
        "exploration"
    }
    fn prepare(&mut self, tier: Tier) -> Result<(), String> {
        self.bound = if tier == Tier::Quick { 3 } else { 4 };
        self.cases = assignments(&dim_sizes(), self.bound);
        self.cases.extend(history_assignments());
        Ok(())
    }
    fn n_cases(&self) -> u64 {
        self.cases.len() as u64
    }
    fn describe(&self, idx: u64) -> Value {
        let mut d = describe_assign(&self.cases[idx as usize]);
        d["idx"] = json!(idx);
        d
    }
    fn rule(&self) -> String {
        format!("cases = (connector configuration, conforming-server parameters) over 34 dimensions ({} alternatives in total): NLA, restricted admin, blank credentials, auto logon, password|hash, 9 client names, 4 screen sizes, 3 layouts, 3 credential sets, SSL although NLA offered, 6 user ids (1001..65535), 4 share ids, 5 versions, optional SC_CORE fields, 6 block orders, unknown block, SC_NET padding, 5 licence variants, 4 capability lists (incl. the Windows capture, unknown and empty sets), 3 source-descriptor lengths, 0, 1, 2 or 4 reactivations, fresh or reused share id on reactivation, licence security-header flags 0x0080 / 0x0280, a Set Error Info (ERRINFO_NONE) PDU before each of the four server finalization PDUs, send-data indications at top / high / medium / low priority, BER lengths of the MCS connect response in minimal and 1..3-byte long forms, MaxLen fields of the NTLM CHALLENGE equal to Len / 0 / 0xFFFF, NTLM CHALLENGE flags without NEGOTIATE_VERSION / without NEGOTIATE_TARGET_INFO / without both (the message layout follows the flags) / without NEGOTIATE_UNICODE (an OEM session), 4 payload layouts of the CHALLENGE (name then info, info then name, unreferenced bytes after / before the fields), RDP_NEG_RSP flags 0x00 / 0x01 / 0x0F / 0x1F / 0x04 (every defined bit incl. the reserved one a client should ignore), a Connector object that was used before (one / two earlier attempts for another account with every flag inverted answered with RDP_NEG_FAILURE, one earlier complete connection with that other configuration, one earlier refused attempt with the same configuration) and then re-configured; outside the product, alone and with 7 single alternatives each: a complete earlier connection differing only in certificate checking / use_nla / the logon flags after which only those setters are called again, and an earlier attempt that the client gave up by itself because the password (20 000 characters) or the client name (40 000) was too long, SC_SECURITY with its optional (zero) length fields, a licensing PDU whose flagsHi holds arbitrary data, 6 orders of the Connector builder calls (flags then credentials, credentials then flags, re-configuration of a connector set up for another account with every flag inverted, flags-credentials-flags, only the calls that differ from the defaults of Connector::new(), the flag setters in the opposite order). Enumerated: the default, every single alternative, every pair, every triple (every quadruple in thorough). Each case is a full real Connector::connect over real TLS + activation + 4 input events + shutdown; oracle: success, mandated message order, no message written while the reply it depends on is unread, identifiers echoed. Non-trivial: at least one non-default coordinate.", dim_sizes().iter().map(|s| s - 1).sum::<usize>())
    }
    fn assumptions(&self) -> Vec<String> {
        vec![
            "the NTLM CHALLENGE is the Windows-like default here (AV pairs/flags vary in C15 and C07)".into(),
            "join order is HashMap-random in the client and unconstrained by the property: joins are compared as a set".into(),
            "client messages are decoded tolerantly here; strictness is C04".into(),
        ]
    }
    fn coverage_extra(&self) -> Value {
        json!({"deviation_bound_completed": self.bound, "dimensions": DIM_NAMES.to_vec(), "dimension_sizes": dim_sizes()})
    }
    fn mem_rule(&self, _p: usize, maxreq: usize, _b: u64) -> Option<String> {
        if maxreq > (8 << 20) {
            Some(format!("allocation of {} bytes", maxreq))
        } else {
            None
        }
    }
    fn run_case(&mut self, idx: u64) -> Outcome {
        let a = self.cases[idx as usize].clone();
        let (c, p) = build(&a);
        let t = match converse(&c, &p, Cert::A, true) {
            Ok(t) => t,
            Err(e) => return Outcome::fail("setup", "machinery", e),
        };
        let nd = a.iter().filter(|v| **v != 0).count();
        match wire::check_c03(&t) {
            Some(f) => Outcome::fail("nonconformant", f.sig, format!("{} [{}]", f.detail, describe_assign(&a)["non_default"])),
            None => {
                let mut o = Outcome::pass(format!("ok:sel{}:react{}", p.selected, p.reactivations), nd > 0);
                if let Some(n) = t.server_notes.first() {
                    o = o.with_note(n.clone());
                }
                o
            }
        }
    }
}

// ------------------------------------------------------------------ C04

#[derive(Clone, Debug)]
enum C04Case {
    Assign(Assign),
    /// one string field replaced: 0 name, 1 domain, 2 user, 3 password; with NLA on/off
    Str(usize, String, bool),
    /// length sweep: field (1 domain, 2 user, 3 password) = 'x' repeated `units` times, server version index, NLA on/off:
    /// every emitted length field (PER send-data length, DER TSCredentials lengths, NTLM descriptors, cb* fields)
    /// walks across its 7-bit / 8-bit encoding boundaries
    Len(usize, usize, usize, bool),
    /// field (1 domain, 2 user, 3 password) = 'x' x lead + one supplementary code point + "tail", auto logon, NLA: a code
    /// point whose surrogate pair sits on a 256-unit / 512-byte boundary
    Astral(usize, usize, bool, bool),
}

pub struct C04 {
    cases: Vec<C04Case>,
}

impl C04 {
    pub fn new() -> C04 {
        C04 { cases: vec![] }
    }
}

impl Prop for C04 {
    fn id(&self) -> &'static str {
        "C04"
    }
    fn level(&self) -> &'static str {
        "exploration"
    }
    fn prepare(&mut self, tier: Tier) -> Result<(), String> {
        let mut cs: Vec<C04Case> = assignments(&dim_sizes(), if tier == Tier::Quick { 2 } else { 3 }).into_iter().map(C04Case::Assign).collect();
        cs.extend(history_assignments().into_iter().map(C04Case::Assign));
        for s in string_alphabet() {
            for field in 0..4 {
                for nla in [true, false] {
                    if field == 2 && nla && !vref::ntlm::uppercase_unambiguous(&s) {
                        continue;
                    }
                    // U+0000 inside a NUL-terminated info-packet string is not representable: only the client name
                    // (which also travels as a counted source descriptor) takes such strings
                    if field != 0 && s.contains('\0') {
                        continue;
                    }
                    cs.push(C04Case::Str(field, s.clone(), nla));
                }
            }
        }
        // client names in which a supplementary code point (surrogate pair) straddles or ends exactly at the 15-unit cut
        for cp in ['\u{10000}', '\u{10001}', '\u{1F600}', '\u{FFFFF}', '\u{100000}', '\u{10FBFF}', '\u{10FC00}', '\u{10FFFF}'] {
            for lead in [12usize, 13, 14, 15] {
                cs.push(C04Case::Str(0, format!("{}{}tail", "x".repeat(lead), cp), false));
            }
            cs.push(C04Case::Str(0, cp.to_string().repeat(8), false));
            cs.push(C04Case::Str(0, format!("x{}", cp.to_string().repeat(8)), true));
        }
        // credentials so long that the client-info PDU approaches and exceeds what a TPKT frame (and a 16-bit cb field)
        // can carry: whatever is sent must still be well formed, or nothing is sent
        for units in [8000usize, 16000, 32000, 32600, 32700, 32740, 32760, 32767, 32768, 33000, 40000, 70000] {
            for field in [2usize, 3] {
                cs.push(C04Case::Len(0, field, units, false));
            }
            cs.push(C04Case::Len(1, 3, units, false));
        }
        // account strings with characters that mean something to some layer (user principal names, down-level names,
        // separators, quotes, control characters), in every field, NLA on and off
        for s in ["alice@contoso.com", "@", "a@", "@realm", "DOM\\user", "with space", " lead", "trail ", "semi;colon:x", "quote\"'", "%41%00", "tab\there", "{brace}[x]", "a/b", "$MACHINE$", "-dash", "."] {
            for field in 0..4 {
                for nla in [true, false] {
                    cs.push(C04Case::Str(field, s.to_string(), nla));
                }
            }
        }
        // a supplementary code point around the 256th UTF-16 unit of a credential, with and without auto logon
        for field in 1..4usize {
            for lead in [253usize, 254, 255, 256, 257, 510, 511, 512] {
                for auto_logon in [false, true] {
                    for nla in [false, true] {
                        cs.push(C04Case::Astral(field, lead, auto_logon, nla));
                    }
                }
            }
        }
        let max_units = if tier == Tier::Quick { 140 } else { 300 };
        for ver in [0usize, 1] {
            for field in 1..4 {
                for nla in [false, true] {
                    for units in 0..=max_units {
                        cs.push(C04Case::Len(ver, field, units, nla));
                    }
                }
            }
        }
        self.cases = cs;
        Ok(())
    }
    fn n_cases(&self) -> u64 {
        self.cases.len() as u64
    }
    fn describe(&self, idx: u64) -> Value {
        match &self.cases[idx as usize] {
            C04Case::Astral(f, lead, auto_logon, nla) => json!({"idx": idx, "field": (["client name", "domain", "user", "password"][*f]), "value": format!("'x' x {} + U+1F600 + \"tail\"", lead), "auto_logon": auto_logon, "use_nla": nla}),
            C04Case::Len(ver, f, units, nla) => json!({"idx": idx, "field": (["client name", "domain", "user", "password"][*f]), "value": format!("'x' x {}", units), "server_version_index": ver, "use_nla": nla}),
            C04Case::Assign(a) => {
                let mut d = describe_assign(a);
                d["idx"] = json!(idx);
                d
            }
            C04Case::Str(f, s, nla) => json!({"idx": idx, "field": (["client name", "domain", "user", "password"][*f]), "value": s, "utf16_units": s.encode_utf16().count(), "use_nla": nla}),
        }
    }
    fn rule(&self) -> String {
        "cases = full conversations (as C03) whose every client message is parsed by the strict reference parsers: TPKT/X.224, BER connect-initial, PER conference-create-request (length = 14 + blocks), CS_CORE/CS_SECURITY/CS_NET block lengths, clientName = 32 bytes holding <=15 UTF-16 units + NUL, info packet cb* fields / terminators / extended info, share control totalLength, share data lengths, confirm-active counts and per-type capability sizes, input PDU numEvents, NTLM NEGOTIATE/AUTHENTICATE descriptor triples, strict DER TSRequest/TSCredentials. Configurations: default, every single alternative and every pair of the 34 C03 dimensions (every triple in thorough), and every string of the Unicode alphabet (class^len for class in {a, é, 日, 😀} x len in {0,1,7,8,15,16,17,31,32,64}, every mixed string of <=3 code points, the boundary code points of every UTF-8/UTF-16 encoding length) as client name, domain, user and password, with NLA on and off; plus client names in which each boundary supplementary code point straddles / ends at the 15-unit cut; 17 strings with characters that mean something to some layer (user principal names with '@', down-level names with a backslash, spaces, separators, quotes, a tab) in every field; credentials with a supplementary code point around their 256th / 512th UTF-16 unit, with and without auto logon; user names and passwords of 8000..70000 UTF-16 units (the client-info PDU then exceeds a TPKT frame: well formed or not sent at all); plus the length sweep: domain, user and password of every length 0..140 UTF-16 units (0..300 thorough) against an RDP5 and an RDP4 server (info packet with and without extended info), NLA on and off, so that every emitted length field crosses its 0x7f/0x80 and 0xff/0x100 encoding boundaries. Non-trivial: every case but the default.".into()
    }
    fn assumptions(&self) -> Vec<String> {
        vec![
            "uncompressedLength is accepted in the three deployed spellings; sourceDescriptor without NUL is accepted".into(),
            "user names with NLA on are restricted to code points with unambiguous upper-casing (see C15)".into(),
        ]
    }
    fn mem_rule(&self, _p: usize, maxreq: usize, _b: u64) -> Option<String> {
        if maxreq > (8 << 20) {
            Some(format!("allocation of {} bytes", maxreq))
        } else {
            None
        }
    }
    fn run_case(&mut self, idx: u64) -> Outcome {
        let (c, p, label) = match self.cases[idx as usize].clone() {
            C04Case::Assign(a) => {
                let (c, p) = build(&a);
                (c, p, "assign".to_string())
            }
            C04Case::Str(f, s, nla) => {
                let mut c = ConnCfg::default();
                let mut p = ServerParams::default();
                c.use_nla = nla;
                p.selected = if nla { 2 } else { 1 };
                match f {
                    0 => c.client.name = s,
                    1 => c.client.domain = s,
                    2 => c.client.user = s,
                    _ => c.client.password = s,
                }
                (c, p, format!("string-{}", ["name", "domain", "user", "password"][f]))
            }
            C04Case::Astral(f, lead, auto_logon, nla) => {
                let mut c = ConnCfg::default();
                let mut p = ServerParams::default();
                c.use_nla = nla;
                c.client.auto_logon = auto_logon;
                p.selected = if nla { 2 } else { 1 };
                let s = format!("{}\u{1F600}tail", "x".repeat(lead));
                match f {
                    1 => c.client.domain = s,
                    2 => c.client.user = s,
                    _ => c.client.password = s,
                }
                (c, p, "astral-at-256".to_string())
            }
            C04Case::Len(ver, f, units, nla) => {
                let mut c = ConnCfg::default();
                let mut p = ServerParams::default();
                c.use_nla = nla;
                p.selected = if nla { 2 } else { 1 };
                p.version = [0x00080004u32, 0x00080001][ver];
                c.client.domain = "".into();
                c.client.user = "u".into();
                c.client.password = "pw".into();
                let s = "x".repeat(units);
                match f {
                    1 => c.client.domain = s,
                    2 => c.client.user = s,
                    _ => c.client.password = s,
                }
                (c, p, format!("length-sweep-v{}", ver))
            }
        };
        let t = match converse(&c, &p, Cert::A, true) {
            Ok(t) => t,
            Err(e) => return Outcome::fail("setup", "machinery", e),
        };
        if let Some(f) = wire::check_c04(&t) {
            return Outcome::fail("malformed", f.sig, f.detail);
        }
        if !t.connect_ok || t.activation_error.is_some() {
            // nothing malformed was seen, but the conversation did not complete: that is C03's verdict, not C04's;
            // still, it reduces what this case covered
            return Outcome::pass(format!("{}:incomplete", label), false).with_note(format!("conversation incomplete: {} {:?}", t.connect_error, t.activation_error));
        }
        Outcome::pass(format!("{}:ok", label), idx != 0)
    }
}

// ------------------------------------------------------------------ C17

pub struct C17 {
    cases: Vec<(ConnCfg, u32, u32, u32)>,
}

impl C17 {
    pub fn new() -> C17 {
        C17 { cases: vec![] }
    }
}

impl Prop for C17 {
    fn id(&self) -> &'static str {
        "C17"
    }
    fn level(&self) -> &'static str {
        "exploration"
    }
    fn prepare(&mut self, tier: Tier) -> Result<(), String> {
        let mut cs = vec![];
        let mut creds: Vec<(String, String, String)> = vec![
            ("dom".into(), "user".into(), "S3cr3t-pässwörd".into()),
            ("".into(), "u".into(), "pw1234".into()),
            ("D".into(), "user2".into(), "pä😀ss\u{10400}".into()),
            // each string empty in turn (an empty user name with a password, an empty password, nothing at all)
            ("dom".into(), "".into(), "pw1234".into()),
            ("dom".into(), "user".into(), "".into()),
            ("".into(), "".into(), "".into()),
        ];
        if tier == Tier::Thorough {
            for s in string_alphabet() {
                if s.encode_utf16().count() >= 3 {
                    creds.push(("dom".into(), "user".into(), s));
                }
            }
        }
        for (d, u, pw) in creds {
            for m in 0..32u32 {
                let mut c = ConnCfg::default();
                c.use_nla = m & 1 != 0;
                c.restricted_admin = m & 2 != 0;
                c.blank_creds = m & 4 != 0;
                c.client.auto_logon = m & 8 != 0;
                c.use_hash = m & 16 != 0;
                c.client.domain = d.clone();
                c.client.user = u.clone();
                c.client.password = pw.clone();
                // a server that selects something the client did not offer (or falls back to standard RDP security):
                // the connection is refused, and nothing of the chosen mode's secrets may have left by then
                for sel in [0u32, 2, 8, 3] {
                    let offered: u32 = if c.use_nla { 3 } else { 1 };
                    if sel == 0 || sel & offered != sel {
                        cs.push((c.clone(), sel, 0u32, 0u32));
                    }
                }
                let sels: Vec<u32> = if c.use_nla { vec![2, 1] } else { vec![1] };
                for sel in sels {
                    for order in 0..7u8 {
                        let mut c2 = c.clone();
                        c2.builder_order = order;
                        cs.push((c2, sel, 0u32, 0u32));
                    }
                    // RDP_NEG_RSP flags (0xF1000000 | flags in the version slot): what the server announces there does not
                    // change what the configuration asked for
                    for flags in [0x01u32, 0x08, 0x17, 0x1F] {
                        cs.push((c.clone(), sel, 0xF100_0000 | flags, 0u32));
                    }
                    // the connector object served other connections before (see ConnCfg::earlier_connections)
                    for earlier in 1..=12u8 {
                        let mut c2 = c.clone();
                        c2.earlier_connections = earlier;
                        cs.push((c2, sel, 0u32, 0u32));
                    }
                    // server versions (info packet with / without extended info) and CHALLENGE flag sets
                    for ver in [0x00080001u32, 0x00080005, 0x0008000C, 0] {
                        cs.push((c.clone(), sel, ver, 0u32));
                    }
                    if sel == 2 {
                        for without in [vref::ntlm::F_SEAL, vref::ntlm::F_SIGN, vref::ntlm::F_SEAL | vref::ntlm::F_SIGN, vref::ntlm::F_128, vref::ntlm::F_ALWAYS_SIGN, vref::ntlm::F_UNICODE, vref::ntlm::F_UNICODE | vref::ntlm::F_SEAL, vref::ntlm::F_VERSION, vref::ntlm::F_TARGET_INFO] {
                            cs.push((c.clone(), sel, 0u32, without));
                        }
                    }
                }
            }
        }
        self.cases = cs;
        Ok(())
    }
    fn n_cases(&self) -> u64 {
        self.cases.len() as u64
    }
    fn describe(&self, idx: u64) -> Value {
        let (c, s, ver, without) = &self.cases[idx as usize];
        json!({"idx": idx, "connector": c, "server_selects": s, "server_version_override": (if ver >> 24 == 0xF1 { "none".to_string() } else { format!("{:#x}", ver) }), "negotiation_response_flags": (if ver >> 24 == 0xF1 { format!("{:#x}", ver & 0xFF) } else { "0x0".to_string() }), "challenge_flags_left_out": format!("{:#x}", without)})
    }
    fn rule(&self) -> String {
        "cases = all 32 combinations of {NLA, restricted admin, blank credentials, auto logon, password|hash} x 6 credential sets incl. each of domain / user / password empty (every alphabet string as password in thorough) x every protocol the server may select among those offered x 6 orders of the Connector builder calls, x server versions 0x00080001 / 5 / C, x CHALLENGE flag sets without SEAL / SIGN / both / 128 / ALWAYS_SIGN / UNICODE (an OEM session) / UNICODE and SEAL / VERSION / TARGET_INFO (the password must not be readable in any CredSSP message, NTLM token fields included), plus servers selecting a protocol that was not offered (incl. HYBRID although NLA is off, and standard RDP security): refused with no CredSSP message, no Client Info and no password anywhere (incl. re-configuring a connector that was set up for another account with every flag inverted); full real connect over real TLS; oracle: decrypted TSCredentials and parsed Client Info match the mode table, the negotiation request announces restricted admin, auto-logon bit iff requested, the password (UTF-8 and UTF-16LE) appears neither on the raw transport nor in any NTLM token, credential-bearing messages only inside TLS. Non-trivial: all. Also every combination under RDP_NEG_RSP flags 0x01 / 0x08 / 0x17 / 0x1F, 6 orders of the builder calls, and a Connector object that served 1-2 refused attempts or a complete connection for another account before being re-configured, that completed a connection under a configuration differing in one group of settings after which only those setters were called, that gave up an attempt by itself (over-long password / client name), or whose connect() is simply called again after a refused attempt / a complete connection (11 histories).".into()
    }
    fn assumptions(&self) -> Vec<String> {
        vec!["with a password hash the connector has no clear-text password: both structures then carry an empty password".into()]
    }
    fn mem_rule(&self, _p: usize, maxreq: usize, _b: u64) -> Option<String> {
        if maxreq > (8 << 20) {
            Some(format!("allocation of {} bytes", maxreq))
        } else {
            None
        }
    }
    fn run_case(&mut self, idx: u64) -> Outcome {
        let (c, sel, ver, without) = self.cases[idx as usize].clone();
        let mut p = ServerParams { selected: sel, ..Default::default() };
        if ver >> 24 == 0xF1 {
            p.cc_flags = (ver & 0xFF) as u8;
        } else if ver != 0 {
            p.version = ver;
        }
        p.ntlm.flags &= !without;
        let t = match converse(&c, &p, Cert::A, false) {
            Ok(t) => t,
            Err(e) => return Outcome::fail("setup", "machinery", e),
        };
        let offered: u32 = if c.use_nla { 3 } else { 1 };
        if sel == 0 || sel & offered != sel {
            return match wire::check_c17_unoffered(&t) {
                Some(f) => Outcome::fail("leak-or-mode-mismatch", f.sig, f.detail),
                None => Outcome::pass(format!("unoffered-selection-refused:nla{}:sel{}", c.use_nla, sel), true),
            };
        }
        if without != 0 {
            // a CHALLENGE that leaves out flags the client asked for: refusing to go on is fine; going on must not expose the password
            if let Some(f) = wire::check_c17_readable(&t) {
                return Outcome::fail("leak-or-mode-mismatch", f.sig, f.detail);
            }
            if !t.connect_ok {
                return Outcome::pass(format!("challenge-without-{:#x}:refused", without), true);
            }
        }
        match wire::check_c17(&t) {
            Some(f) => Outcome::fail("leak-or-mode-mismatch", f.sig, f.detail),
            None => Outcome::pass(format!("ok:nla{}:ra{}:blank{}:hash{}:sel{}", c.use_nla, c.restricted_admin, c.blank_creds, c.use_hash, sel), true),
        }
    }
}
