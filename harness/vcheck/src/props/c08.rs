//! C08 — bitmap decompression is total and returns exactly width*height*4 bytes.
//! Exhaustive over all short data strings, plus grammar-aware order sequences, on the real
//! `BitmapEvent::decompress`.

use crate::runner::{Outcome, Prop, Tier};
use rdp::core::event::BitmapEvent;
use serde_json::{json, Value};
use vref::bytes::{hex, W};
use vref::rle::{self, Form, Kind, Order};

#[derive(Clone, Debug)]
struct Case {
    w: u16,
    h: u16,
    bpp: u16,
    compress: bool,
    data: Vec<u8>,
    block: &'static str,
}

pub struct C08 {
    tier: Tier,
    // lazily indexable blocks: (name, count)
    dims: Vec<(u16, u16)>,
    orders16: Vec<Vec<u8>>,
    planar_units: Vec<Vec<u8>>,
    blocks: Vec<(&'static str, u64)>,
}

impl C08 {
    pub fn new() -> C08 {
        C08 { tier: Tier::Quick, dims: vec![], orders16: vec![], planar_units: vec![], blocks: vec![] }
    }
}

const BPPS: [u16; 9] = [0, 1, 8, 15, 16, 24, 32, 33, 0xFFFF];
const GRAMMAR_DIMS: [(u16, u16); 8] = [(1, 1), (2, 2), (4, 2), (3, 3), (9, 2), (1, 8), (0, 3), (3, 0)];
const PLANAR_DIMS: [(u16, u16); 9] = [(1, 1), (2, 1), (1, 2), (2, 2), (4, 1), (0, 1), (1, 0), (17, 1), (33, 2)];

fn short_string(i: u64) -> Vec<u8> {
    // index -> all byte strings ordered by length then value: 1 empty, 256 of length 1, 65536 of length 2, 2^24 of length 3
    if i == 0 {
        vec![]
    } else if i < 257 {
        vec![(i - 1) as u8]
    } else if i < 257 + 65536 {
        let v = i - 257;
        vec![(v >> 8) as u8, v as u8]
    } else {
        let v = i - 257 - 65536;
        vec![(v >> 16) as u8, (v >> 8) as u8, v as u8]
    }
}

fn build_orders16(w: u16, h: u16) -> Vec<Vec<u8>> {
    // one grammar-aware alphabet shared by all dims: run lengths include the line/buffer boundaries of the largest grammar dims
    let _ = (w, h);
    let mut out: Vec<Vec<u8>> = vec![];
    let runs: Vec<u32> = vec![1, 2, 3, 4, 7, 8, 9, 15, 16, 17, 18, 19, 31, 32, 33, 0xFFFF];
    let kinds = [Kind::BgRun, Kind::FgRun, Kind::FgBgImage, Kind::ColorRun, Kind::ColorImage, Kind::SetFgRun, Kind::SetFgFgBgImage, Kind::DitheredRun];
    for k in kinds.iter() {
        for f in [Form::Short, Form::Extended, Form::MegaMega] {
            for &r in &runs {
                if !rle::spellable(k, &f, r) {
                    continue;
                }
                for param in [0u16, 0xFFFF] {
                    let masks = vec![if param == 0 { 0x55 } else { 0xFF }; ((r + 7) / 8).min(40) as usize];
                    let pixels = vec![param; r.min(40) as usize];
                    let o = Order { kind: k.clone(), form: f.clone(), run: r, fg: param, a: param, b: !param, masks, pixels };
                    let mut wr = W::new();
                    rle::emit(&o, &mut wr);
                    out.push(wr.done());
                    if !matches!(k, Kind::SetFgRun | Kind::SetFgFgBgImage | Kind::ColorRun | Kind::DitheredRun | Kind::ColorImage | Kind::FgBgImage) {
                        break;
                    }
                }
            }
        }
    }
    // extended forms with a zero extension byte, and truncated mega-mega headers
    for b in [0x00u8, 0x20, 0x40, 0x60, 0x80, 0xC0, 0xD0, 0xE0] {
        out.push(vec![b, 0x00]);
        out.push(vec![b, 0xFF]);
        out.push(vec![b]);
    }
    for b in 0xF0u16..=0xFF {
        out.push(vec![b as u8]);
        out.push(vec![b as u8, 0, 0]);
        out.push(vec![b as u8, 1, 0]);
        out.push(vec![b as u8, 0xFF, 0xFF]);
        out.push(vec![b as u8, 0xFF, 0xFF, 1, 0, 2, 0]);
    }
    // undefined regular codes 0xA0-0xBF
    for b in [0xA0u8, 0xA1, 0xBF, 0xB0] {
        out.push(vec![b]);
        out.push(vec![b, 5]);
    }
    for k in [Kind::SpecialFgBg1, Kind::SpecialFgBg2, Kind::White, Kind::Black] {
        let mut wr = W::new();
        rle::emit(&Order::simple(k, Form::Short, 1), &mut wr);
        out.push(wr.done());
    }
    out.sort();
    out.dedup();
    out
}

fn build_planar_units() -> Vec<Vec<u8>> {
    // control byte (cRaw<<4 | nRun) followed by 0..cRaw raw bytes (complete, or truncated by one)
    let mut out = vec![];
    for craw in [0u8, 1, 2, 3, 15] {
        for nrun in [0u8, 1, 2, 3, 15] {
            let c = (craw << 4) | nrun;
            for val in [0u8, 1, 0xFF] {
                let mut v = vec![c];
                v.extend(std::iter::repeat(val).take(craw as usize));
                out.push(v.clone());
                if craw > 0 {
                    v.pop();
                    out.push(v);
                }
                if craw == 0 {
                    break;
                }
            }
        }
    }
    out.sort();
    out.dedup();
    out
}

impl C08 {
    fn case(&self, idx: u64) -> Case {
        let mut i = idx;
        for (name, n) in &self.blocks {
            if i < *n {
                return self.case_in(name, i);
            }
            i -= n;
        }
        unreachable!()
    }

    fn case_in(&self, block: &'static str, mut i: u64) -> Case {
        match block {
            // all dims x all bpp x both flags x all strings of length <= 1
            "short1" => {
                let s = i % 257;
                i /= 257;
                let c = i % 2;
                i /= 2;
                let b = i % BPPS.len() as u64;
                i /= BPPS.len() as u64;
                let (w, h) = self.dims[i as usize];
                Case { w, h, bpp: BPPS[b as usize], compress: c == 1, data: short_string(s), block }
            }
            // compressed 16/32 bpp: all strings of length 2 (and 3 in thorough)
            "short23" => {
                let n = 65536;
                let s = i % n + 257;
                i /= n;
                let b = i % 2;
                i /= 2;
                let (w, h) = self.dims[i as usize];
                Case { w, h, bpp: if b == 0 { 16 } else { 32 }, compress: true, data: short_string(s), block }
            }
            // thorough: all 2^24 three-byte strings for the 25 dimension pairs 0..4 x 0..4
            "short3" => {
                let n = 1u64 << 24;
                let s = i % n + 257 + 65536;
                i /= n;
                let b = i % 2;
                i /= 2;
                let (w, h) = self.dims[i as usize];
                Case { w, h, bpp: if b == 0 { 16 } else { 32 }, compress: true, data: short_string(s), block }
            }
            // grammar-aware sequences of interleaved orders (16 bpp)
            "orders" => {
                let n = self.orders16.len() as u64;
                let depth = if self.tier == Tier::Quick { 2 } else { 3 };
                let mut data = vec![];
                // sequences of length 1..=depth: encode as base (n+1) digits, digit 0 = "no order" (only allowed as suffix)
                for _ in 0..depth {
                    let d = i % (n + 1);
                    i /= n + 1;
                    if d > 0 {
                        data.extend_from_slice(&self.orders16[(d - 1) as usize]);
                    }
                }
                let (w, h) = GRAMMAR_DIMS[i as usize];
                Case { w, h, bpp: 16, compress: true, data, block }
            }
            "planar" => {
                let n = self.planar_units.len() as u64;
                let depth = if self.tier == Tier::Quick { 3 } else { 4 };
                let hdr = i % 3;
                i /= 3;
                let mut data = vec![[0x10u8, 0x00, 0x30][hdr as usize]];
                for _ in 0..depth {
                    let d = i % (n + 1);
                    i /= n + 1;
                    if d > 0 {
                        data.extend_from_slice(&self.planar_units[(d - 1) as usize]);
                    }
                }
                let (w, h) = PLANAR_DIMS[i as usize];
                Case { w, h, bpp: 32, compress: true, data, block }
            }
            // planar: all 256 header bytes followed by a plausible body
            "planarhdr" => {
                let hdr = (i % 256) as u8;
                i /= 256;
                let (w, h) = PLANAR_DIMS[i as usize];
                let mut data = vec![hdr];
                for _ in 0..4 * h as usize {
                    data.push(((w.min(15) as u8) << 4) | 0);
                    data.extend(std::iter::repeat(7u8).take(w.min(15) as usize));
                }
                Case { w, h, bpp: 32, compress: true, data, block }
            }
            // uncompressed: data length around the exact size
            "rawlen" => {
                let k = i % 6;
                i /= 6;
                let b = i % BPPS.len() as u64;
                i /= BPPS.len() as u64;
                let (w, h) = self.dims[i as usize];
                let bpp = BPPS[b as usize];
                let bytes_pp = ((bpp as usize).min(64) + 7) / 8;
                let exact = w as usize * h as usize * bytes_pp;
                let len = match k {
                    0 => 0,
                    1 => exact.saturating_sub(1),
                    2 => exact,
                    3 => exact + 1,
                    4 => exact * 2 + 3,
                    _ => exact / 2,
                };
                Case { w, h, bpp, compress: false, data: vec![0xA5; len], block }
            }
            // uncompressed, one side near 2^15 / 2^16: (dimension pair, depth, data length around the row size)
            "rawwide" => {
                let k = i % 10;
                i /= 10;
                let b = i % BPPS.len() as u64;
                i /= BPPS.len() as u64;
                let (w, h) = WIDE_DIMS[i as usize];
                let bpp = BPPS[b as usize];
                let bytes_pp = ((bpp as usize).min(64) + 7) / 8;
                let row = w as usize * bytes_pp;
                let padded = (row + 3) & !3;
                let len = match k {
                    0 => 0,
                    1 => 1,
                    2 => 4,
                    3 => row.saturating_sub(1),
                    4 => row,
                    5 => padded,
                    6 => padded + 1,
                    7 => (padded * h as usize).saturating_sub(1),
                    8 => padded * h as usize,
                    _ => row * h as usize,
                };
                Case { w, h, bpp, compress: false, data: vec![0x5A; len], block }
            }
            _ => unreachable!(),
        }
    }
}

const WIDE_DIMS: [(u16, u16); 22] = [
    (16383, 1), (16384, 2), (32766, 1), (32766, 2), (32767, 1), (32767, 2), (32767, 3), (32768, 1), (32768, 2), (40000, 1), (40000, 2), (65534, 1), (65535, 1), (65535, 2), (65535, 3),
    (1, 32767), (1, 32768), (1, 65535), (2, 32768), (3, 65535), (0, 65535), (65535, 0),
];

impl Prop for C08 {
    fn id(&self) -> &'static str {
        "C08"
    }
    fn level(&self) -> &'static str {
        "exploration"
    }
    fn prepare(&mut self, tier: Tier) -> Result<(), String> {
        self.tier = tier;
        let mut dims = vec![];
        for w in 0..=4u16 {
            for h in 0..=4u16 {
                dims.push((w, h));
            }
        }
        dims.extend([(8, 1), (1, 8), (9, 2), (255, 1), (256, 256)]);
        self.dims = dims;
        self.orders16 = build_orders16(0, 0);
        self.planar_units = build_planar_units();
        let nd = self.dims.len() as u64;
        let no = self.orders16.len() as u64 + 1;
        let np = self.planar_units.len() as u64 + 1;
        let (od, pd) = if tier == Tier::Quick { (2u32, 3u32) } else { (3, 4) };
        self.blocks = vec![
            ("short1", nd * BPPS.len() as u64 * 2 * 257),
            ("short23", nd * 2 * 65536),
            ("short3", if tier == Tier::Quick { 0 } else { 25 * 2 * (1u64 << 24) }),
            ("orders", GRAMMAR_DIMS.len() as u64 * no.pow(od)),
            ("planar", PLANAR_DIMS.len() as u64 * 3 * np.pow(pd)),
            ("planarhdr", PLANAR_DIMS.len() as u64 * 256),
            ("rawlen", nd * BPPS.len() as u64 * 6),
            ("rawwide", WIDE_DIMS.len() as u64 * BPPS.len() as u64 * 10),
        ];
        Ok(())
    }
    fn n_cases(&self) -> u64 {
        self.blocks.iter().map(|b| b.1).sum()
    }
    fn describe(&self, idx: u64) -> Value {
        let c = self.case(idx);
        json!({"idx": idx, "block": c.block, "width": c.w, "height": c.h, "bpp": c.bpp, "compress": c.compress, "data_hex": hex(&c.data[..c.data.len().min(64)]), "data_len": c.data.len()})
    }
    fn rule(&self) -> String {
        "cases = (width, height, bpp, compression flag, data). Blocks: [short1] 30 dims x 9 depths x 2 flags x all strings of length <=1; [short23] compressed 16/32 bpp x 30 dims x all 65536 two-byte strings (in thorough also all 2^24 three-byte strings for the 25 dimension pairs up to 4x4); [orders] grammar-aware sequences of <=2 (<=3 thorough) interleaved-RLE orders from an alphabet of every order kind x form x boundary run length incl. undefined codes and truncated headers; [planar] header x sequences of <=3 (<=4) planar control segments; [planarhdr] all 256 format header bytes; [rawlen] uncompressed data lengths {0, exact-1, exact, exact+1, 2*exact+3, exact/2}; [rawwide] uncompressed images with one side of 16383..65535 (and the other 0..3 / vice versa) x depths x data lengths {0, 1, 4, row-1, row, padded row, +1, whole-1, whole, unpadded whole}. Non-trivial: the decoder consumed at least one complete order/segment (data non-empty and supported depth).".into()
    }
    fn assumptions(&self) -> Vec<String> {
        vec!["allocation bound checked: peak <= 4*(w*h*4) + 8*len(data) + 64 KiB".into(), "dimensions above 256x256 are not enumerated".into()]
    }
    fn coverage_extra(&self) -> Value {
        json!({"blocks": self.blocks.iter().map(|b| json!({"name": b.0, "cases": b.1})).collect::<Vec<_>>(), "order_alphabet": self.orders16.len(), "planar_alphabet": self.planar_units.len()})
    }
    fn mem_rule(&self, _peak: usize, _maxreq: usize, _bytes_in: u64) -> Option<String> {
        None // checked per case inside run_case with the property's own bound
    }
    fn run_case(&mut self, idx: u64) -> Outcome {
        let c = self.case(idx);
        let expect_len = c.w as usize * c.h as usize * 4;
        let data_len = c.data.len();
        // small cases are decoded again right afterwards under other dimensions (same bytes, same destination rectangle)
        let again: Option<Vec<u8>> = if (c.w as usize) * (c.h as usize) <= 1024 && c.w < 0xFFFF && c.h < 0xFFFF { Some(crate::alloc::exempt(|| c.data.clone())) } else { None };
        let (w0, h0, bpp0, compress0, block0) = (c.w, c.h, c.bpp, c.compress, c.block);
        let ev = BitmapEvent { dest_left: 0, dest_top: 0, dest_right: c.w.wrapping_sub(1), dest_bottom: c.h.wrapping_sub(1), width: c.w, height: c.h, bpp: c.bpp, is_compress: c.compress, data: c.data };
        crate::alloc::reset();
        let r = ev.decompress();
        let (peak, _maxreq) = crate::alloc::snapshot();
        let bound = 4 * expect_len + 8 * data_len + (64 << 10);
        if peak > bound {
            return Outcome::fail("memory", "allocation-out-of-proportion", format!("peak {} bytes > bound {} for {}x{} data {}", peak, bound, c.w, c.h, data_len));
        }
        let nontrivial = data_len > 0 && (c.bpp == 16 || c.bpp == 32);
        match &r {
            Ok(v) => {
                if v.len() != expect_len {
                    let sig = format!("wrong-output-length-bpp{}-{}", c.bpp, if c.compress { "compressed" } else { "raw" });
                    return Outcome::fail("badlen", sig, format!("Ok with {} bytes, expected {} ({}x{}x4), block {}", v.len(), expect_len, c.w, c.h, c.block));
                }
            }
            Err(_) => {}
        }
        let first_ok = r.is_ok();
        if let Some(data) = again {
            for (w2, h2) in [(w0 + 1, h0), (w0, h0 + 1), (h0, w0.max(1) + 2)] {
                let ev2 = BitmapEvent { dest_left: 0, dest_top: 0, dest_right: w0.wrapping_sub(1), dest_bottom: h0.wrapping_sub(1), width: w2, height: h2, bpp: bpp0, is_compress: compress0, data: crate::alloc::exempt(|| data.clone()) };
                if let Ok(v) = ev2.decompress() {
                    if v.len() != w2 as usize * h2 as usize * 4 {
                        let sig = format!("wrong-output-length-bpp{}-{}-for-the-same-bytes-under-other-dimensions", bpp0, if compress0 { "compressed" } else { "raw" });
                        return Outcome::fail("badlen", sig, format!("after a {}x{} decode, the same bytes as {}x{} (same destination rectangle): Ok with {} bytes, expected {}, block {}", w0, h0, w2, h2, v.len(), w2 as usize * h2 as usize * 4, block0));
                    }
                }
            }
        }
        if first_ok {
            Outcome::pass(format!("ok-bpp{}-{}", bpp0, compress0), nontrivial)
        } else {
            Outcome::pass(format!("err-bpp{}-{}", bpp0, compress0), nontrivial)
        }
    }
}
