//! C10 — every bitmap rectangle the server sends reaches the application exactly once.

use crate::fixture::{raw_active, ClientCfg};
use crate::peer::ServerParams;
use crate::runner::{Outcome, Prop, Tier};
use rdp::core::event::RdpEvent;
use rdp::core::tpkt;
use serde::Serialize;
use serde_json::{json, Value};
use std::io::Cursor;
use vref::fastpath::{self, Rect, Update};
use vref::framing;

#[derive(Clone, Debug, Serialize)]
pub struct Pdu {
    pub updates: Vec<Update>,
    pub long_form: bool,
    pub first_byte: u8,
}

#[derive(Clone, Debug, Serialize)]
pub struct Case {
    pub pdus: Vec<Pdu>,
    /// hand the payload directly to global::Client::read (lengths beyond the 15-bit frame limit)
    pub direct: bool,
    pub block: &'static str,
    /// all the frames of the case are in the client's receive buffer before the first read (one TCP segment)
    pub coalesced: bool,
}

pub struct C10 {
    cases: Vec<Case>,
}

impl C10 {
    pub fn new() -> C10 {
        C10 { cases: vec![] }
    }
}

fn rect(k: u16, len: usize) -> Rect {
    Rect { left: k, top: k + 1, right: k + 3, bottom: k + 2, width: 4, height: 2, bpp: 16, flags: 0, data: (0..len).map(|i| (i * 3 + k as usize) as u8).collect() }
}

fn field_variants() -> Vec<Rect> {
    let mut v = vec![];
    let vals = [0u16, 1, 0x7FFF, 0xFFFF];
    for f in 0..6 {
        for &x in &vals {
            let mut r = rect(5, 16);
            match f {
                0 => r.left = x,
                1 => r.top = x,
                2 => r.right = x,
                3 => r.bottom = x,
                4 => r.width = x,
                _ => r.height = x,
            }
            v.push(r);
        }
    }
    let mut r = rect(5, 16);
    r.left = 0xFFFF;
    r.top = 0xFFFF;
    r.right = 0xFFFF;
    r.bottom = 0xFFFF;
    r.width = 0xFFFF;
    r.height = 0xFFFF;
    v.push(r);
    for bpp in [8u16, 15, 16, 24, 32, 0, 0xFFFF] {
        for flags in [0u16, 0x0001, 0x0401, 0x0400, 0xFBFE, 0xFFFF, 0x0003, 0x0021, 0x8001, 0xFBFF, 0x0402, 0x0C01] {
            for len in [0usize, 1, 2, 255, 256] {
                let mut r = rect(2, len);
                r.bpp = bpp;
                r.flags = flags;
                v.push(r);
            }
        }
    }
    v
}

fn update_alphabet() -> Vec<Update> {
    let mut a = vec![
        Update::Bitmap(vec![]),
        Update::Bitmap(vec![rect(1, 8)]),
        Update::Bitmap(vec![rect(2, 0), rect(3, 5)]),
        Update::Bitmap(vec![rect(4, 3), rect(5, 1), rect(6, 300)]),
        Update::Bitmap(vec![{
            let mut r = rect(7, 12);
            r.flags = 0x0001;
            r.bpp = 32;
            r
        }]),
        Update::Bitmap(vec![{
            let mut r = rect(8, 12);
            r.flags = 0x0401;
            r
        }]),
    ];
    for code in [fastpath::UPD_SYNCHRONIZE, fastpath::UPD_PTR_NULL, fastpath::UPD_COLOR, fastpath::UPD_PTR_DEFAULT, fastpath::UPD_PTR_POSITION, fastpath::UPD_CACHED, fastpath::UPD_POINTER, fastpath::UPD_ORDERS, fastpath::UPD_PALETTE, fastpath::UPD_SURFCMDS, 0x7, 0xC, 0xF] {
        a.push(fastpath::other_update(code));
    }
    a
}

impl Prop for C10 {
    fn id(&self) -> &'static str {
        "C10"
    }
    fn level(&self) -> &'static str {
        "exploration"
    }
    fn prepare(&mut self, tier: Tier) -> Result<(), String> {
        let mut cs = vec![];
        let alpha = update_alphabet();
        let n = alpha.len();
        // A: PDUs of <= 2 updates, sequences of <= 2 PDUs (<= 3 in thorough)
        let mut single: Vec<Vec<Update>> = vec![vec![]];
        for i in 0..n {
            single.push(vec![alpha[i].clone()]);
            for j in 0..n {
                single.push(vec![alpha[i].clone(), alpha[j].clone()]);
            }
        }
        for a in &single {
            cs.push(Case { pdus: vec![Pdu { updates: a.clone(), long_form: false, first_byte: 0 }], direct: false, coalesced: false, block: "one-pdu" });
        }
        let reduced: Vec<&Vec<Update>> = single.iter().filter(|u| u.len() <= 1).collect();
        for a in &single {
            for b in &reduced {
                cs.push(Case { pdus: vec![Pdu { updates: a.clone(), long_form: false, first_byte: 0 }, Pdu { updates: (*b).clone(), long_form: true, first_byte: 0 }], direct: false, coalesced: false, block: "two-pdus" });
                cs.push(Case { pdus: vec![Pdu { updates: (*b).clone(), long_form: false, first_byte: 0 }, Pdu { updates: a.clone(), long_form: false, first_byte: 0 }], direct: false, coalesced: false, block: "two-pdus" });
                cs.push(Case { pdus: vec![Pdu { updates: a.clone(), long_form: true, first_byte: 0 }, Pdu { updates: (*b).clone(), long_form: false, first_byte: 0 }], direct: false, coalesced: true, block: "two-pdus-one-segment" });
                cs.push(Case { pdus: vec![Pdu { updates: (*b).clone(), long_form: true, first_byte: 0 }, Pdu { updates: a.clone(), long_form: false, first_byte: 0 }], direct: false, coalesced: true, block: "two-pdus-one-segment" });
                cs.push(Case { pdus: vec![Pdu { updates: (*b).clone(), long_form: false, first_byte: 0 }, Pdu { updates: a.clone(), long_form: true, first_byte: 0 }], direct: false, coalesced: true, block: "two-pdus-one-segment" });
            }
        }
        if tier == Tier::Thorough {
            for a in &reduced {
                for b in &reduced {
                    for c in &single {
                        cs.push(Case { pdus: vec![Pdu { updates: (*a).clone(), long_form: false, first_byte: 0 }, Pdu { updates: (*b).clone(), long_form: true, first_byte: 0 }, Pdu { updates: c.clone(), long_form: false, first_byte: 0 }], direct: false, coalesced: false, block: "three-pdus" });
                        cs.push(Case { pdus: vec![Pdu { updates: (*a).clone(), long_form: true, first_byte: 0 }, Pdu { updates: (*b).clone(), long_form: false, first_byte: 0 }, Pdu { updates: c.clone(), long_form: true, first_byte: 0 }], direct: false, coalesced: true, block: "three-pdus-one-segment" });
                    }
                }
            }
        }
        // B: three updates in one PDU
        for i in 0..n {
            for j in 0..n {
                for k in 0..n {
                    if tier == Tier::Quick && (i + j + k) % 3 != 0 {
                        continue;
                    }
                    cs.push(Case { pdus: vec![Pdu { updates: vec![alpha[i].clone(), alpha[j].clone(), alpha[k].clone()], long_form: (i + j) % 2 == 0, first_byte: 0 }], direct: false, coalesced: false, block: "three-updates" });
                }
            }
        }
        // C: every rectangle field variant, alone / followed by another rectangle / between other updates; both length forms; reserved header bits
        for r in field_variants() {
            for long_form in [false, true] {
                for first_byte in [0x00u8, 0x3C, 0x04] {
                    if first_byte != 0 && long_form {
                        continue;
                    }
                    cs.push(Case { pdus: vec![Pdu { updates: vec![Update::Bitmap(vec![r.clone()])], long_form, first_byte }], direct: false, coalesced: false, block: "rect-fields" });
                }
            }
            cs.push(Case { pdus: vec![Pdu { updates: vec![fastpath::other_update(fastpath::UPD_PTR_POSITION), Update::Bitmap(vec![r.clone(), rect(9, 4)]), fastpath::other_update(0xC), Update::Bitmap(vec![rect(1, 2)])], long_form: true, first_byte: 0 }], direct: false, coalesced: false, block: "rect-fields" });
        }
        // D: data lengths up to the frame limit, and beyond it by calling the PDU reader directly
        for len in [0x3FF0usize, 0x7F00, 0x7FD0] {
            cs.push(Case { pdus: vec![Pdu { updates: vec![Update::Bitmap(vec![rect(1, len)])], long_form: true, first_byte: 0 }], direct: false, coalesced: false, block: "data-length" });
        }
        for len in [0x7FFFusize, 0x8000, 0xFFE0, 0xFFEC] {
            cs.push(Case { pdus: vec![Pdu { updates: vec![Update::Bitmap(vec![rect(1, len)]), Update::Bitmap(vec![rect(2, 3)])], long_form: true, first_byte: 0 }], direct: true, coalesced: false, block: "data-length-direct" });
        }
        // E: many rectangles / many updates
        // long sessions: 300 and 66 000 PDUs on one client (one or two updates each; every 5th carries a non-bitmap update)
        for n in [300usize, 66_000] {
            let pdus: Vec<Pdu> = (0..n).map(|k| Pdu { updates: if k % 50 == 49 { vec![] } else if k % 5 == 4 { vec![fastpath::other_update((2 + k % 14) as u8), Update::Bitmap(vec![rect((k % 60000) as u16, k % 6)])] } else { vec![Update::Bitmap(vec![rect((k % 60000) as u16, k % 4)])] }, long_form: k % 3 == 0, first_byte: 0 }).collect();
            cs.push(Case { pdus, direct: false, coalesced: false, block: "long-session" });
        }
        // a session that has seen updates the client cannot parse (of the bitmap code and of others): what comes afterwards
        // is delivered as usual
        for a in alpha.iter().take(6) {
            cs.push(Case { pdus: vec![Pdu { updates: vec![a.clone(), Update::Bitmap(vec![rect(7, 5), rect(8, 0)])], long_form: false, first_byte: 0 }, Pdu { updates: vec![Update::Bitmap(vec![rect(9, 3)])], long_form: true, first_byte: 0 }], direct: false, coalesced: false, block: "after-unparsable-updates" });
        }
        // update sizes x the capability list the server announced (its multifragment capability says what the SERVER can
        // reassemble, not how large its updates are): small, large and small updates in one PDU, large ones alone
        for block in ["update-size-x-capabilities:windows", "update-size-x-capabilities:minimal", "update-size-x-capabilities:small-multifragment", "update-size-x-capabilities:unknown-sets"] {
            for big in [100usize, 1000, 3000, 16000] {
                cs.push(Case { pdus: vec![Pdu { updates: vec![Update::Bitmap(vec![rect(1, 10)]), Update::Bitmap(vec![rect(2, big)]), Update::Bitmap(vec![rect(3, 10)])], long_form: true, first_byte: 0 }, Pdu { updates: vec![Update::Bitmap(vec![rect(4, big), rect(5, big / 2)])], long_form: true, first_byte: 0 }], direct: false, coalesced: false, block });
            }
        }
        // a session that has seen slow-path frames the client refuses or ignores (a share-control PDU of a type it does not
        // implement, a data PDU cut short, an unknown data PDU, an indication on another channel, a frame with an X.224
        // header that is not a data header): the share is still active, the bitmap updates behind them are delivered
        for a in alpha.iter().take(4) {
            cs.push(Case { pdus: vec![Pdu { updates: vec![Update::Bitmap(vec![rect(17, 5), rect(18, 0)])], long_form: false, first_byte: 0 }, Pdu { updates: vec![a.clone(), Update::Bitmap(vec![rect(19, 3)])], long_form: true, first_byte: 0 }], direct: false, coalesced: false, block: "after-refused-slow-path-frames" });
        }
        cs.push(Case { pdus: vec![Pdu { updates: vec![Update::Bitmap((0..200).map(|k| rect(k, (k % 7) as usize)).collect())], long_form: true, first_byte: 0 }], direct: false, coalesced: false, block: "many" });
        cs.push(Case { pdus: vec![Pdu { updates: (0..300).map(|k| if k % 3 == 0 { Update::Bitmap(vec![rect(k, 2)]) } else { fastpath::other_update((k % 16) as u8) }).collect(), long_form: true, first_byte: 0 }], direct: false, coalesced: false, block: "many" });
        // C2: every non-bitmap update code (2..15, and 0 = orders) carrying a body that is a perfectly good bitmap update
        // payload: no bitmap event may come out of it, and the real bitmap update behind it is delivered
        {
            let look_alike = Update::Bitmap(vec![rect(1, 4), rect(2, 0)]).bytes();
            // Update::bytes() = header byte + u16 size + body: keep the body
            let body = look_alike[3..].to_vec();
            for code in (0..16u8).filter(|c| *c != 1) {
                for frag in [0u8] {
                    let u = Update::Other { code: code | (frag << 4), body: body.clone() };
                    cs.push(Case { pdus: vec![Pdu { updates: vec![u.clone(), Update::Bitmap(vec![rect(9, 3)])], long_form: false, first_byte: 0 }], direct: false, coalesced: false, block: "look-alike-bodies" });
                    cs.push(Case { pdus: vec![Pdu { updates: vec![Update::Bitmap(vec![rect(9, 3)]), u], long_form: true, first_byte: 0 }], direct: false, coalesced: false, block: "look-alike-bodies" });
                }
            }
        }
        // D1: short-form PDUs of the largest sizes the one-byte length can express (and the same in long form)
        {
            let overhead = framing::fastpath(0, &fastpath::updates_payload(&[Update::Bitmap(vec![rect(1, 0)])]), false).len();
            for t in 120usize..=127 {
                if t >= overhead {
                    for long_form in [false, true] {
                        let extra = if long_form { 1 } else { 0 };
                        cs.push(Case { pdus: vec![Pdu { updates: vec![Update::Bitmap(vec![rect(3, t - overhead - extra)])], long_form, first_byte: 0 }, Pdu { updates: vec![Update::Bitmap(vec![rect(4, 1)])], long_form: false, first_byte: 0 }], direct: false, coalesced: true, block: "total-length" });
                    }
                }
            }
        }
        // D2: long-form PDUs whose TOTAL length sits on and around every multiple of 256 up to 2 KiB, and around 4 KiB,
        // 16 KiB and the 15-bit limit (one rectangle, data sized to hit the total exactly)
        {
            let overhead = framing::fastpath(0, &fastpath::updates_payload(&[Update::Bitmap(vec![rect(1, 0)])]), true).len();
            let mut totals: Vec<usize> = vec![];
            for k in 1..=8usize {
                totals.extend([k * 256 - 1, k * 256, k * 256 + 1, k * 256 + 2, k * 256 + 3]);
            }
            for base in [0x1000usize, 0x4000, 0x7F00] {
                totals.extend([base - 1, base, base + 1, base + 2, base + 3]);
            }
            totals.extend([0x7FFD, 0x7FFE, 0x7FFF]);
            for t in totals {
                if t >= overhead {
                    cs.push(Case { pdus: vec![Pdu { updates: vec![Update::Bitmap(vec![rect(3, t - overhead)])], long_form: true, first_byte: 0 }, Pdu { updates: vec![Update::Bitmap(vec![rect(4, 1)])], long_form: false, first_byte: 0 }], direct: false, coalesced: true, block: "total-length" });
                }
            }
        }
        // E2: counts around and above 1024 / 2048 (rectangles with no or two data bytes so that the PDU fits a frame;
        // larger ones are handed to the PDU reader directly)
        for n in [1023u16, 1024, 1025, 1500, 1800] {
            cs.push(Case { pdus: vec![Pdu { updates: vec![Update::Bitmap((0..n).map(|k| rect(k, 0)).collect())], long_form: true, first_byte: 0 }], direct: false, coalesced: false, block: "many" });
        }
        for n in [2047u16, 2048, 2049, 3000] {
            cs.push(Case { pdus: vec![Pdu { updates: vec![Update::Bitmap((0..n).map(|k| rect(k, 2)).collect()), Update::Bitmap(vec![rect(7, 3)])], long_form: true, first_byte: 0 }], direct: true, coalesced: false, block: "many-direct" });
        }
        for n in [1023usize, 1024, 1025, 2049, 5000] {
            let mut ups: Vec<Update> = (0..n).map(|k| fastpath::other_update([fastpath::UPD_SYNCHRONIZE, fastpath::UPD_PTR_NULL, fastpath::UPD_PTR_DEFAULT][k % 3])).collect();
            ups.push(Update::Bitmap(vec![rect(1, 2), rect(2, 0), rect(3, 4)]));
            cs.push(Case { pdus: vec![Pdu { updates: ups, long_form: true, first_byte: 0 }], direct: n > 4000, coalesced: false, block: "many" });
        }
        self.cases = cs;
        Ok(())
    }
    fn n_cases(&self) -> u64 {
        self.cases.len() as u64
    }
    fn describe(&self, idx: u64) -> Value {
        let c = &self.cases[idx as usize];
        let brief: Vec<Vec<String>> = c
            .pdus
            .iter()
            .map(|p| {
                p.updates
                    .iter()
                    .take(6)
                    .map(|u| match u {
                        Update::Bitmap(r) => format!("bitmap[{} rects: {:?}]", r.len(), r.iter().take(3).map(|x| (x.left, x.top, x.right, x.bottom, x.width, x.height, x.bpp, x.flags, x.data.len())).collect::<Vec<_>>()),
                        Update::Other { code, body } => format!("update {:#x} ({} bytes)", code, body.len()),
                    })
                    .collect()
            })
            .collect();
        json!({"idx": idx, "block": c.block, "direct": c.direct, "pdus": brief, "forms": c.pdus.iter().map(|p| (p.long_form, p.first_byte)).collect::<Vec<_>>()})
    }
    fn rule(&self) -> String {
        "cases = sequences of fast-path output PDUs delivered to a really activated client (raw stack) through RdpClient::read; PDUs of 0..3 updates over an alphabet of 19 updates (bitmap updates with 0,1,2,3 rectangles, with/without compression header, and 13 non-bitmap/unknown update codes); sequences of <=2 (<=3) PDUs, delivered one frame at a time (lock step) and all at once in one segment before the first read (both length forms, so that an empty PDU of either form is followed by more PDUs); every rectangle field at {0,1,0x7FFF,0xFFFF} one at a time and all-max, depths x flag combinations x data lengths {0,1,2,255,256}, short and long length forms, reserved header bits; every non-bitmap update code carrying a body that is a valid bitmap update payload; short-form PDUs of 120..127 bytes; long-form PDUs whose total length is k*256-1..k*256+3 (k=1..8) and around 4 KiB / 16 KiB / the 15-bit limit; 1023..3000 rectangles in one update and 1023..5000 updates in one PDU; data lengths up to the 15-bit frame limit and beyond it (0x7FFF..0xFFEC) through global::Client::read directly. Oracle: callback sequence == reference parser's rectangle list (count, order, nine fields, data). Non-trivial: >= 2 updates in total or a non-default field. The cases whose frames sit in one segment are delivered whole or 1, 3 or 7 bytes per read call (by case index). In every third multi-PDU case the application polls between two PDUs while nothing is pending and the transport answers WouldBlock / TimedOut: the later PDUs are delivered all the same. Two long sessions of 300 and 66 000 PDUs on one client. Six cases start with 48 malformed updates (every code x three bodies) that produce no event. Every 50th PDU of the long sessions carries no update at all. [update-size-x-capabilities] small / large / small updates in one PDU and large ones alone (100..16000 data bytes) under four capability lists incl. one whose multifragment capability announces MaxRequestSize = 64; [after-refused-slow-path-frames] bitmap updates after eight slow-path frames the client refuses or ignores (unimplemented share-control types, a data PDU cut short, an unknown data PDU, another channel, an X.224 header that is not a data header, empty bodies).".into()
    }
    fn assumptions(&self) -> Vec<String> {
        vec!["scope as in the statement: unfragmented, uncompressed updates (fragmentation and compression bits of the update header are 0); numberRectangles consistent with the rectangles present".into()]
    }
    fn mem_rule(&self, peak: usize, maxreq: usize, bytes_in: u64) -> Option<String> {
        if maxreq > (1 << 20) {
            return Some(format!("single allocation of {} bytes", maxreq));
        }
        if peak > (16 << 20) + 2048 * bytes_in as usize {
            return Some(format!("peak {} for {} bytes received", peak, bytes_in));
        }
        None
    }
    fn run_case(&mut self, idx: u64) -> Outcome {
        let c = crate::alloc::exempt(|| self.cases[idx as usize].clone());
        let caps = match c.block {
            "update-size-x-capabilities:minimal" => crate::peer::CapsKind::Minimal,
            "update-size-x-capabilities:small-multifragment" => crate::peer::CapsKind::SmallMultifragment,
            "update-size-x-capabilities:unknown-sets" => crate::peer::CapsKind::WithUnknown,
            _ => ServerParams::default().caps,
        };
        let mut conn = match raw_active(&ClientCfg::default(), ServerParams { caps, ..Default::default() }) {
            Ok(c) => c,
            Err(e) => return Outcome::fail("setup", "honest-activation-failed", e),
        };
        let client = conn.client.as_mut().unwrap();
        let big = if c.pdus.len() > 1000 { c.pdus.len() * 2 } else { 0 };
        let mut got: Vec<Rect> = crate::alloc::exempt(|| Vec::with_capacity(big));
        let mut want: Vec<Rect> = crate::alloc::exempt(|| Vec::with_capacity(big));
        let mut total_updates = 0;
        if c.coalesced {
            // the segment reaches the client whole, or 1, 3 or 7 bytes per read call (by case index)
            let cap = [0usize, 1, 3, 7][(idx % 4) as usize];
            if cap > 0 {
                conn.sh.borrow_mut().read_plan = crate::memlink::ReadPlan::Cap(cap);
            }
            for p in &c.pdus {
                let payload = fastpath::updates_payload(&p.updates);
                let long = p.long_form || payload.len() + 2 > 0x7f;
                conn.sh.borrow_mut().push_to_client(&framing::fastpath(p.first_byte, &payload, long));
            }
        }
        if c.block == "after-refused-slow-path-frames" {
            use vref::{mcs, share};
            let sid = crate::fsm::SHARE_A;
            let sdi = |d: &[u8]| framing::tpkt(&framing::x224_dt(&mcs::send_data_indication(1002, 1003, d)));
            let mut cut = share::set_error_info(sid, 1002, 5);
            cut.truncate(cut.len() - 3);
            let n = cut.len() as u16;
            cut[0..2].copy_from_slice(&n.to_le_bytes());
            let frames: Vec<Vec<u8>> = vec![
                sdi(&share::share_control(0x1A, 1002, &[0; 12])),
                sdi(&cut),
                sdi(&share::share_data(sid, 1002, 0x26, &[2, 0, 0, 0])),
                sdi(&share::share_control(0x13, 1002, &[0; 8])),
                framing::tpkt(&framing::x224_dt(&mcs::send_data_indication(1002, 1004, &[1, 2, 3, 4]))),
                framing::tpkt(&[0x06, 0x80, 0, 0, 0, 0, 0]),
                sdi(&[]),
                sdi(&[0x03]),
            ];
            for f in frames {
                conn.sh.borrow_mut().push_to_client(&f);
                let _ = client.read(|_| {});
                conn.sh.borrow_mut().to_client.clear();
            }
        }
        if c.block == "after-unparsable-updates" {
            // malformed updates of every code 0..15 (the bitmap code 1 with another inner updateType, with a 2-byte body, with
            // an empty body): no event is expected from them, an error may be reported, the session goes on
            for code in 0..16u8 {
                for body in [&[0x02u8, 0x00][..], &[][..], &[0x01, 0x00, 0x01, 0x00, 0x00][..]] {
                    let mut w = vref::bytes::W::new();
                    w.u8(code).u16le(body.len() as u16).bytes(body);
                    conn.sh.borrow_mut().push_to_client(&framing::fastpath(0, &w.0, false));
                    let _ = client.read(|_| {});
                    conn.sh.borrow_mut().to_client.clear();
                }
            }
        }
        let n_pdus = c.pdus.len();
        for (pi, p) in c.pdus.iter().enumerate() {
            let payload = fastpath::updates_payload(&p.updates);
            total_updates += p.updates.len();
            match fastpath::expected_events(&payload) {
                Ok(e) => want.extend(e),
                Err(e) => return Outcome::pass(format!("out-of-scope: {}", e), false),
            }
            let mut cb = |e: RdpEvent| {
                if let RdpEvent::Bitmap(b) = e {
                    got.push(Rect { left: b.dest_left, top: b.dest_top, right: b.dest_right, bottom: b.dest_bottom, width: b.width, height: b.height, bpp: b.bpp, flags: if b.is_compress { 1 } else { 0 }, data: b.data });
                }
            };
            let before = conn.sh.borrow().from_client.len();
            let r = if c.direct {
                let (m, g) = client.verif_parts_mut();
                g.read(tpkt::Payload::FastPath(0, Cursor::new(payload.clone())), m, &mut cb)
            } else {
                let long = p.long_form || payload.len() + 2 > 0x7f;
                let frame = framing::fastpath(p.first_byte, &payload, long);
                if !c.coalesced {
                    // in every third such case the application polls once while nothing is pending (a socket with a read
                    // timeout / a non-blocking socket answers TimedOut / WouldBlock before any byte): the poll fails,
                    // nothing is consumed, and the PDUs that arrive afterwards are delivered as usual
                    if pi > 0 && idx % 3 == 1 {
                        conn.sh.borrow_mut().err_when_empty = Some(if pi % 2 == 1 { std::io::ErrorKind::WouldBlock } else { std::io::ErrorKind::TimedOut });
                        let polled = client.read(|_| {});
                        conn.sh.borrow_mut().err_when_empty = None;
                        if polled.is_ok() {
                            return Outcome::fail("mismatch", "idle-poll-returned-ok", "read returned Ok although no byte was pending".to_string());
                        }
                    }
                    conn.sh.borrow_mut().push_to_client(&frame);
                }
                client.read(&mut cb)
            };
            if let Err(e) = r {
                return Outcome::fail("mismatch", "well-formed-fast-path-pdu-rejected", format!("{:?} (block {})", e, c.block));
            }
            if conn.sh.borrow().from_client.len() != before {
                return Outcome::fail("mismatch", "client-wrote-on-fast-path-output", "bytes written while processing output".to_string());
            }
            if (!c.coalesced || pi + 1 == n_pdus) && !conn.sh.borrow().to_client.is_empty() {
                return Outcome::fail("mismatch", "pdu-not-fully-consumed", format!("{} bytes left", conn.sh.borrow().to_client.len()));
            }
        }
        if got.len() != want.len() {
            return Outcome::fail("mismatch", "wrong-number-of-bitmap-events", format!("{} callbacks for {} rectangles sent (block {})", got.len(), want.len(), c.block));
        }
        for (i, (g, w)) in got.iter().zip(want.iter()).enumerate() {
            let w_norm = Rect { flags: w.flags & 1, ..w.clone() };
            if *g != w_norm {
                let what = if g.data != w.data { "data" } else { "fields" };
                return Outcome::fail(
                    "mismatch",
                    format!("bitmap-event-{}-differ", what),
                    format!("rectangle #{}: got ({},{},{},{},{},{},{},compress={},{} bytes) sent ({},{},{},{},{},{},{},flags={:#x},{} bytes)", i, g.left, g.top, g.right, g.bottom, g.width, g.height, g.bpp, g.flags, g.data.len(), w.left, w.top, w.right, w.bottom, w.width, w.height, w.bpp, w.flags, w.data.len()),
                );
            }
        }
        Outcome::pass(format!("{}-{}events", c.block, want.len().min(4)), total_updates >= 2 || c.block == "rect-fields")
    }
}
